#!/usr/bin/env python3
"""Translator (T): re-reads /repo's Rust sources and regenerates lean/ErbiumModel/Generated/*.lean.

Deliberately dumb: anchored regular expressions over a function body located by *name*; every
extraction has a shape assertion and fails closed (the extracted item is reported in
Generated/STATUS.json as missing and the Lean constant becomes a sentinel that makes the property
theorems about it unprovable), never keeps an old value.  Files are only rewritten when their
content changes so that lake does not rebuild for nothing.
"""
import json, os, re, sys

REPO = os.environ.get("VERIF_REPO", "/repo")
OUT = os.path.join(os.path.dirname(os.path.abspath(__file__)), "..", "lean", "ErbiumModel", "Generated")
CORE = os.path.join(REPO, "crates/erbium-core/src")
NET = os.path.join(REPO, "crates/erbium-net/src")

status = {}   # item -> {"ok": bool, "value": ..., "where": ...}


def read(path):
    with open(path, encoding="utf-8") as f:
        return f.read()


def strip_comments(src):
    src = re.sub(r"/\*.*?\*/", lambda m: " " * 0 + re.sub(r"[^\n]", " ", m.group(0)), src, flags=re.S)
    src = re.sub(r"//[^\n]*", "", src)
    return src


def fn_body(src, name, nth=0):
    """text of the body of `fn name` (brace matched); None if absent"""
    hits = [m for m in re.finditer(r"\bfn\s+" + re.escape(name) + r"\b", src)]
    if len(hits) <= nth:
        return None
    i = src.find("{", hits[nth].end())
    if i < 0:
        return None
    depth, j = 0, i
    while j < len(src):
        c = src[j]
        if c == "{":
            depth += 1
        elif c == "}":
            depth -= 1
            if depth == 0:
                return src[i:j + 1]
        j += 1
    return None


def rust_int(lit):
    lit = lit.replace("_", "")
    lit = re.sub(r"(u8|u16|u32|u64|usize|i32|i64)$", "", lit)
    if lit.startswith("0x") or lit.startswith("0X"):
        return int(lit[2:], 16)
    if lit.startswith("0b"):
        return int(lit[2:], 2)
    if lit.startswith("0o"):
        return int(lit[2:], 8)
    return int(lit)


def record(item, value, where, ok=True):
    status[item] = {"ok": ok, "value": value, "where": where}
    return value


def grab(item, text, pattern, where, conv=lambda m: m.group(1), flags=re.S):
    """regex-extract with shape assertion; returns None (recorded as missing) when absent"""
    if text is None:
        return record(item, None, where, ok=False)
    m = re.search(pattern, text, flags)
    if not m:
        return record(item, None, where, ok=False)
    try:
        return record(item, conv(m), where)
    except Exception:
        return record(item, None, where, ok=False)


def nat(v, sentinel="0"):
    """Lean numeral; a missing value becomes the sentinel and is flagged in STATUS"""
    return str(v) if v is not None else sentinel


NO_LIMIT = 18446744073709551615


def boolean(v):
    return "true" if v else "false"


def write_if_changed(path, content):
    old = None
    if os.path.exists(path):
        old = read(path)
    if old != content:
        tmp = path + ".tmp%d" % os.getpid()
        with open(tmp, "w", encoding="utf-8") as f:
            f.write(content)
        os.replace(tmp, path)


# ------------------------------------------------------------------------------------------------
def gen_dhcp():
    pkt = strip_comments(read(os.path.join(CORE, "dhcp/dhcppkt.rs")))
    mod = strip_comments(read(os.path.join(CORE, "dhcp/mod.rs")))
    pool = strip_comments(read(os.path.join(CORE, "dhcp/pool.rs")))
    bf = fn_body(pkt, "get_broadcast_flag")
    mask = grab("dhcp.broadcastMask", bf, r"\{\s*self\.flags\s*&\s*([0-9A-Za-z_]+)\s*!=\s*0\s*\}",
                "dhcppkt.rs get_broadcast_flag", lambda m: rust_int(m.group(1)))
    magic_p = grab("dhcp.magicParse", fn_body(pkt, "parse"), r"magic\s*!=\s*([0-9A-Za-z_]+)",
                   "dhcppkt.rs parse", lambda m: rust_int(m.group(1)))
    magic_s = grab("dhcp.magicSerialise", fn_body(pkt, "serialise", nth=-1) if False else pkt,
                   r"/?\s*([0-9A-Za-z_]+)\.serialise\(&mut v\);\s*self\.options\.serialise", "dhcppkt.rs Dhcp::serialise",
                   lambda m: rust_int(m.group(1)))
    # destination choice of the reply (recvdhcp)
    rd = fn_body(mod, "recvdhcp")
    # one packet at a time: `handle_pkt` is a plain (non-async) function that takes the pool by exclusive reference, and
    # the service calls it with the guard of the pool mutex
    hp_sig = bool(re.search(r"pub fn handle_pkt\(\s*pools: &mut pool::Pool,", mod)) and not re.search(r"async fn handle_pkt", mod)
    hp_call = bool(re.search(r"let mut pool = self\.pool\.lock\(\)\.await;\s*let lockedconf = self\.conf\.read\(\)\.await;\s*reply = match handle_pkt\(\s*&mut pool,", rd or ""))
    pool_ty = bool(re.search(r"pool: std::sync::Arc<sync::Mutex<pool::Pool>>", mod))
    exclusive = hp_sig and hp_call and pool_ty
    record("dhcp.handlePktExclusive", exclusive, "dhcp/mod.rs handle_pkt signature, DhcpService.pool, the call in recvdhcp", ok=exclusive)
    dst = grab("dhcp.dstChoice", rd,
               r"let\s+dst\s*=\s*if\s+(.*?)\s*\{(.*?)\}\s*else\s*\{(.*?)\}\s*;", "dhcp/mod.rs recvdhcp",
               lambda m: (re.sub(r"\s+", "", m.group(1)), re.sub(r"\s+", "", m.group(2)), re.sub(r"\s+", "", m.group(3))))

    def classify(expr):
        if expr is None:
            return "other"
        if "Ipv4Addr::BROADCAST" in expr and "yiaddr" not in expr:
            return "broadcast"
        if re.search(r"\breply\.yiaddr\b", expr) and "BROADCAST" not in expr:
            return "yiaddr"
        return "other"
    cond_ok = dst is not None and dst[0] == "request.pkt.get_broadcast_flag()"
    minl = grab("dhcp.DEFAULT_MIN_LEASE", pool, r"DEFAULT_MIN_LEASE\s*:\s*std::time::Duration\s*=\s*std::time::Duration::from_secs\(([0-9_]+)\)",
                "pool.rs", lambda m: rust_int(m.group(1)))
    maxl = grab("dhcp.DEFAULT_MAX_LEASE", pool, r"DEFAULT_MAX_LEASE\s*:\s*std::time::Duration\s*=\s*std::time::Duration::from_secs\(([0-9_]+)\)",
                "pool.rs", lambda m: rust_int(m.group(1)))
    cfgsrc = strip_comments(read(os.path.join(CORE, "dhcp/config.rs")))
    bdc = fn_body(mod, "build_default_config")
    # (1..((1 << (32 - p4.prefixlen)) - K))
    defk = grab("dhcp.defaultRangeUpperMinus", bdc,
                r"\(\s*1\s*\.\.\s*\(\s*\(\s*1(?:_u32)?\s*<<\s*\(\s*32\s*-\s*p4\.prefixlen\s*\)\s*\)\s*-\s*([0-9]+)\s*\)\s*\)\s*\.map",
                "dhcp/mod.rs build_default_config", lambda m: int(m.group(1)))
    # for i in 1..(((1 << (32 - subnet.prefixlen)) - A) - B)   or   1..((1 << ..) - A)
    pp = fn_body(cfgsrc, "parse_policy")
    subk = grab("dhcp.applySubnetUpperMinus", pp,
                r"for\s+i\s+in\s+1\s*\.\.\s*\(+\s*1(?:_u32)?\s*<<\s*\(\s*32\s*-\s*subnet\.prefixlen\s*\)\s*\)\s*((?:-\s*[0-9]+\s*\)?\s*)+)\{",
                "dhcp/config.rs parse_policy apply-subnet", lambda m: sum(int(x) for x in re.findall(r"[0-9]+", m.group(1))))
    defmin = grab("dhcp.defaultPoolMinLen", bdc, r"if\s+p4\.prefixlen\s*<\s*([0-9]+)\s*\{\s*return None;\s*\}\s*let subnet =", "dhcp/mod.rs build_default_config", lambda m: int(m.group(1)))
    submin = grab("dhcp.applySubnetMinLen", pp, r"if\s+subnet\.prefixlen\s*<\s*([0-9]+)\s*\{\s*return Err\(", "dhcp/config.rs parse_policy apply-subnet", lambda m: int(m.group(1)))
    # option type table: which option codes carry IPv4 addresses (ip4 / ip4 list / routes) and may therefore say $self4
    consts = {m.group(1): rust_int(m.group(2)) for m in re.finditer(r"pub const (OPTION_[A-Z0-9_]+): DhcpOption = DhcpOption\(([0-9_]+)\);", pkt)}
    table = re.findall(r"\(\s*\"([a-z0-9-]+)\",\s*(OPTION_[A-Z0-9_]+),\s*DhcpOptionType::([A-Za-z0-9]+),?\s*\)", pkt)
    ipcodes = sorted({consts[c] for _, c, t in table if t in ("Ip", "IpList") and c in consts})
    rtcodes = sorted({consts[c] for _, c, t in table if t == "Routes" and c in consts})
    okt = len(table) >= 60 and all(c in consts for _, c, _ in table)
    record("dhcp.ipOptionCodes", ipcodes, "dhcppkt.rs option table", ok=okt and len(ipcodes) > 10)
    record("dhcp.routeOptionCodes", rtcodes, "dhcppkt.rs option table", ok=okt and len(rtcodes) >= 1)
    ap = fn_body(mod, "apply_policy")
    rs = fn_body(mod, "resolve_self4") or ""
    self4 = bool(ap and re.search(r"let v = v\.as_ref\(\)\.map\(\|v\| resolve_self4\(v, req\.serverip\)\);\s*response\.options\.mutate_option\(k, v\.as_ref\(\)\);", ap)) and \
        bool(re.search(r"Ip\(ip\) => Ip\(own\(ip\)\),\s*IpList\(l\) => IpList\(l\.iter\(\)\.map\(own\)\.collect\(\)\),\s*Routes\(l\) => Routes\(", rs)) and \
        bool(re.search(r"if std::net::IpAddr::V4\(\*ip\) == crate::config::INTERFACE4 \{\s*serverip\s*\} else \{\s*\*ip\s*\}", rs))
    record("dhcp.policySelf4Resolved", self4, "dhcp/mod.rs apply_policy / resolve_self4", ok=self4)
    rng = grab("dhcp.applyRangeInclusive", pp, r"for\s+i\s+in\s+u32::from\(start\)\s*\.\.=\s*u32::from\(end\)", "dhcp/config.rs parse_policy apply-range", lambda m: True)
    hd = fn_body(mod, "handle_discover")
    offer51 = grab("dhcp.offerHasLeaseTime", hd, r"OPTION_LEASETIME", "dhcp/mod.rs handle_discover", lambda m: True)
    if offer51 is None:
        status["dhcp.offerHasLeaseTime"] = {"ok": True, "value": False, "where": "dhcp/mod.rs handle_discover"}
    hp = fn_body(mod, "handle_pkt")
    arms = grab("dhcp.dispatchArms", hp, r"match\s+request\.pkt\.options\.get_messagetype\(\)\s*\{(.*)\}\s*\}\s*$", "dhcp/mod.rs handle_pkt",
                lambda m: re.findall(r"Some\(dhcppkt::(DHCP[A-Z]+)\)\s*=>\s*\{[^}]*?(handle_[a-z]+)\(", m.group(1)))
    arms_ok = arms == [("DHCPDISCOVER", "handle_discover"), ("DHCPREQUEST", "handle_request")]
    rest_ok = bool(hp and re.search(r"Some\(x\)\s*=>\s*Err\(DhcpError::UnknownMessageType\(x\)\)", hp)
                   and re.search(r"None\s*=>\s*Err\(DhcpError::ParseError\(", hp))
    status["dhcp.dispatchArms"] = {"ok": bool(arms_ok and rest_ok), "value": arms, "where": "dhcp/mod.rs handle_pkt"}
    out = f"""/- GENERATED by tools/extract.py from {REPO} — do not edit. -/
namespace Erbium.Generated.Dhcp

/-- mask tested by `Dhcp::get_broadcast_flag` (dhcppkt.rs) -/
def broadcastMask : Nat := {nat(mask)}
/-- magic cookie compared in `parse` / written by `serialise` -/
def magicParse : Nat := {nat(magic_p)}
def magicSerialise : Nat := {nat(magic_s)}

inductive DstExpr where
  | broadcast | yiaddr | other
deriving DecidableEq, Repr

/-- `let dst = if <cond> {{ <then> }} else {{ <else> }}` in `recvdhcp` -/
def dstCondIsBroadcastFlag : Bool := {boolean(cond_ok)}

/-- `handle_pkt` is not `async`, takes `&mut pool::Pool`, and is called with the guard of `Arc<Mutex<Pool>>`: the
    handling of one packet — every read and write of the lease table it does — excludes every other -/
def handlePktExclusive : Bool := {boolean(exclusive)}
def dstThen : DstExpr := .{classify(dst[1] if dst else None)}
def dstElse : DstExpr := .{classify(dst[2] if dst else None)}

/-- `build_default_config`: host offsets are `1..((1 << (32-len)) - k)` (exclusive upper bound) -/
def defaultRangeUpperMinus : Nat := {nat(defk, "99")}
/-- `apply-subnet`: host offsets are `1..((1 << (32-len)) - k)` (exclusive upper bound) -/
def applySubnetUpperMinus : Nat := {nat(subk, "99")}
/-- `addresses` prefixes shorter than this get no default pool; `apply-subnet` shorter than this is refused -/
def defaultPoolMinLen : Nat := {nat(defmin)}
def applySubnetMinLen : Nat := {nat(submin)}
/-- option codes whose values are IPv4 addresses or lists of them / classless routes (dhcppkt.rs option table) -/
def ipOptionCodes : List Nat := [{", ".join(map(str, ipcodes))}]
def routeOptionCodes : List Nat := [{", ".join(map(str, rtcodes))}]
/-- `apply_policy` replaces `$self4` in the values it applies by the receiving address -/
def policySelf4Resolved : Bool := {boolean(self4)}
/-- `apply-range` iterates `start..=end` -/
def applyRangeInclusive : Bool := {boolean(rng)}
/-- `handle_discover` sets option 51 (lease time) on the OFFER -/
def offerHasLeaseTime : Bool := {boolean(offer51)}
/-- `handle_pkt` dispatches DISCOVER -> handle_discover, REQUEST -> handle_request, everything else -> error -/
def dispatchOk : Bool := {boolean(arms_ok and rest_ok)}

def defaultMinLease : Nat := {nat(minl)}
def defaultMaxLease : Nat := {nat(maxl)}

end Erbium.Generated.Dhcp
"""
    write_if_changed(os.path.join(OUT, "Dhcp.lean"), out)


CMPS = {">": "gt", ">=": "ge", "<": "lt", "<=": "le", "=": "eq", "==": "eq", "!=": "ne", "<>": "ne"}


def cmpname(op):
    return CMPS.get(op) if op else None


def gen_pool():
    pool = strip_comments(read(os.path.join(CORE, "dhcp/pool.rs")))
    sql_cmp = r"(>=|<=|<>|!=|==|=|>|<)"
    req = grab("pool.requestedInUseCmp", fn_body(pool, "select_requested_address"),
               r"WHERE\s+expiry\s*" + sql_cmp + r"\s*\?1\s+AND\s+address\s*=\s*\?2", "pool.rs select_requested_address")
    new = grab("pool.newInUseCmp", fn_body(pool, "select_new_address"),
               r"WHERE\s+expiry\s*" + sql_cmp + r"\s*\?1\s+AND\s+address\s*=\s*\?2", "pool.rs select_new_address")
    sel = fn_body(pool, "select_address")
    own = grab("pool.ownCurrentCmp", sel,
               r"WHERE\s+clientid\s*=\s*\?1\s+AND\s+expiry\s*" + sql_cmp + r"\s*\?2", "pool.rs select_address step 1")
    order1 = grab("pool.step1Order", sel,
                  r"AND\s+expiry\s*\S+\s*\?2\s+ORDER\s+BY\s+address\s*=\s*\?3\s+DESC\s*,\s*expiry\s+DESC", "pool.rs select_address step 1 ORDER BY",
                  lambda m: True)
    order2 = grab("pool.step2Order", sel,
                  r"GROUP\s+BY\s+1\s+ORDER\s+BY\s+address\s*=\s*\?2\s+DESC\s*,\s*expire_time\s+DESC\s+LIMIT\s+1", "pool.rs select_address step 2 ORDER BY",
                  lambda m: True)
    met = fn_body(pool, "get_pool_metrics")
    col = (r"(COALESCE\(|IFNULL\()?\s*SUM\(CASE\s+WHEN\s+expiry\s*" + sql_cmp +
           r"\s*\?1\s+THEN\s+1\s+ELSE\s+0\s+END\)\s*(,\s*0\s*\))?\s*as\s+(\w+)")
    mm = grab("pool.metricsSql", met, col + r"\s*,\s*" + col + r"\s+FROM\s+leases",
              "pool.rs get_pool_metrics",
              lambda m: (m.group(2), bool(m.group(1)) and bool(m.group(3)), m.group(4),
                         m.group(6), bool(m.group(5)) and bool(m.group(7)), m.group(8)))
    ret_order = grab("pool.metricsReturnOrder", met, r"Ok\(\(row\.get\(0\)\?\s*,\s*row\.get\(1\)\?\)\)", "pool.rs get_pool_metrics", lambda m: True)
    # struct Pool { conn } : no volatile state besides the connection (C18 restart equivalence)
    fields = grab("pool.structFields", pool, r"pub\s+struct\s+Pool\s*\{([^}]*)\}", "pool.rs struct Pool",
                  lambda m: [f.split(":")[0].strip() for f in m.group(1).split(",") if f.strip()])
    tx = grab("pool.setupDbTransactional", fn_body(pool, "setup_db"), r"(unchecked_transaction|transaction)\s*\(", "pool.rs setup_db",
              lambda m: True)
    if tx is None:
        status["pool.setupDbTransactional"] = {"ok": True, "value": False, "where": "pool.rs setup_db"}
        tx = False

    def c(v):
        n = cmpname(v)
        return "." + n if n else ".bad"
    first_cmp = mm[0] if mm else None
    second_cmp = mm[3] if mm else None
    coalesce = bool(mm and mm[1] and mm[4])
    labels_ok = bool(mm and mm[2] == "active" and mm[5] == "expired" and ret_order)
    out = f"""/- GENERATED by tools/extract.py from {REPO} — do not edit. -/
namespace Erbium.Generated.Pool

inductive Cmp where
  | gt | ge | lt | le | eq | ne | bad
deriving DecidableEq, Repr

def Cmp.eval : Cmp → Nat → Nat → Bool
  | .gt, a, b => decide (a > b)
  | .ge, a, b => decide (a ≥ b)
  | .lt, a, b => decide (a < b)
  | .le, a, b => decide (a ≤ b)
  | .eq, a, b => decide (a = b)
  | .ne, a, b => decide (a ≠ b)
  | .bad, _, _ => false

/-- `WHERE expiry <cmp> ?1 AND address = ?2` in `select_requested_address` -/
def requestedInUseCmp : Cmp := {c(req)}
/-- same test in `select_new_address` -/
def newInUseCmp : Cmp := {c(new)}
/-- `WHERE clientid = ?1 AND expiry <cmp> ?2` (step 1 of `select_address`) -/
def ownCurrentCmp : Cmp := {c(own)}
/-- the two `ORDER BY address=? DESC, expiry DESC` clauses were found as expected -/
def step1OrderOk : Bool := {boolean(order1)}
def step2OrderOk : Bool := {boolean(order2)}
/-- `get_pool_metrics`: comparison of the first / second SUM column, whether NULL is coalesced to 0,
    and whether the columns are labelled (active, expired) in that order -/
def metricsFirstCmp : Cmp := {c(first_cmp)}
def metricsSecondCmp : Cmp := {c(second_cmp)}
def metricsCoalesce : Bool := {boolean(coalesce)}
def metricsLabelsActiveExpired : Bool := {boolean(labels_ok)}
/-- number of fields of `struct Pool` (1 = only the connection: no volatile state) -/
def poolStructFields : Nat := {len(fields) if fields else 0}
/-- every migration step and its version bump run inside one transaction -/
def setupDbTransactional : Bool := {boolean(tx)}

end Erbium.Generated.Pool
"""
    write_if_changed(os.path.join(OUT, "Pool.lean"), out)


def match_arms(body):
    """top-level arms `pat => expr` of the first `match … { … }` in body -> list of (pattern, text)"""
    m = re.search(r"\bmatch\b[^{]*\{", body)
    if not m:
        return None
    i = m.end()
    depth, j, arms, start = 1, i, [], i
    # split on top-level commas / closing braces of arm blocks
    while j < len(body) and depth > 0:
        c = body[j]
        if c in "{([":
            depth += 1
        elif c in "})]":
            depth -= 1
            if depth == 1 and c == "}":
                arms.append(body[start:j + 1])
                start = j + 1
        elif c == "," and depth == 1:
            arms.append(body[start:j])
            start = j + 1
        j += 1
    out = []
    for a in arms:
        if "=>" in a:
            pat, _, txt = a.partition("=>")
            out.append((re.sub(r"\s+", "", pat).lstrip(","), txt))
    return out


def gen_acl():
    http = strip_comments(read(os.path.join(CORE, "http.rs")))
    sr = fn_body(http, "serve_request")
    arms = match_arms(sr) if sr else None
    table = []
    ok = arms is not None
    if ok:
        for pat, txt in arms:
            m = re.match(r'\(&Method::([A-Z]+),"([^"]*)"\)$', pat)
            guard = re.findall(r"require_http_permission\([^;]*?acl::PermissionType::(\w+)", txt, re.S)
            # the content must only be produced in the else-branch of `if let Some(ret) = require_http_permission(..)`
            guarded = bool(re.search(r"if\s+let\s+Some\(ret\)\s*=\s*require_http_permission\(", txt)) and len(guard) == 1
            if m:
                table.append((m.group(1), m.group(2), guard[0] if guarded else None))
            elif pat == "_":
                table.append(("*", "*", guard[0] if guarded else None))
            else:
                ok = False
    status["acl.httpArms"] = {"ok": bool(ok and table), "value": table, "where": "http.rs serve_request"}
    dacl = strip_comments(read(os.path.join(CORE, "dns/acl.rs")))
    hq = fn_body(dacl, "handle_query")
    order = False
    if hq:
        a = re.search(r"acl::require_permission\(.*?acl::PermissionType::DnsRecursion\s*,?\s*\)\s*\.map_err\(Error::RefusedByAcl\)\?;", hq, re.S)
        b = hq.find("self.next.handle_query")
        order = bool(a and b > a.end() and hq.count("self.next.handle_query") == 1 and hq.find("return") > a.end())
    status["acl.dnsAclFirst"] = {"ok": True, "value": order, "where": "dns/acl.rs handle_query"}

    def perm(p):
        return {"Http": ".http", "HttpMetrics": ".httpMetrics", "HttpLeases": ".httpLeases", "DnsRecursion": ".dnsRecursion"}.get(p)
    rows = ",\n  ".join('("%s", "%s", %s)' % (m_, p_, ("some " + perm(g)) if g and perm(g) else "none") for m_, p_, g in table)
    out = f"""/- GENERATED by tools/extract.py from {REPO} — do not edit. -/
namespace Erbium.Generated.Acl

inductive Perm where | dnsRecursion | http | httpLeases | httpMetrics
deriving DecidableEq, Repr

/-- arms of the router in `http::serve_request`: (method, path, permission that guards the content);
    `("*", "*", _)` is the catch-all arm -/
def httpArms : List (String × String × Option Perm) := [
  {rows}]

/-- `DnsAclHandler::handle_query` checks dns-recursion (and returns REFUSED via `?`) before it
    hands the query to the router/cache/upstream chain -/
def dnsAclFirst : Bool := {boolean(order)}

end Erbium.Generated.Acl
"""
    write_if_changed(os.path.join(OUT, "Acl.lean"), out)


def gen_dns():
    bucket = strip_comments(read(os.path.join(CORE, "dns/bucket.rs")))
    mod = strip_comments(read(os.path.join(CORE, "dns/mod.rs")))
    outq = strip_comments(read(os.path.join(CORE, "dns/outquery.rs")))
    maxt = grab("dns.MAX_TOKENS", bucket, r"const\s+MAX_TOKENS\s*:\s*u32\s*=\s*([0-9_]+)\s*;", "dns/bucket.rs", lambda m: rust_int(m.group(1)))
    rate = grab("dns.TOKENS_PER_SECOND", bucket, r"const\s+TOKENS_PER_SECOND\s*:\s*u32\s*=\s*([0-9_]+)\s*;", "dns/bucket.rs", lambda m: rust_int(m.group(1)))
    sr = fn_body(mod, "should_ratelimit")
    floor = grab("dns.costFloor", sr,
                 r"std::cmp::max\(\s*\(in_reply_serialised\.len\(\)\s*\*\s*2\)\s*\.saturating_sub\(msg\.in_size\)\s*,\s*([0-9_]+)\s*,?\s*\)",
                 "dns/mod.rs should_ratelimit", lambda m: rust_int(m.group(1)))
    only_refused = grab("dns.ratelimitOnlyRefused", sr, r"if\s+in_reply\.rcode\s*!=\s*dnspkt::REFUSED\s*\{\s*return\s+false;\s*\}", "dns/mod.rs should_ratelimit", lambda m: True)
    good_exempt = grab("dns.goodCookieExempt", sr, r"CookieStatus::Good\s*=>\s*\{(?:(?!CookieStatus::).)*?return\s+false;", "dns/mod.rs should_ratelimit", lambda m: True)
    retry = grab("dns.retryLimit", fn_body(outq, "send_udp"), r"if\s+attempts\.len\(\)\s*>\s*([0-9]+)\s*\{\s*return\s+Err\(Error::Timeout\)", "dns/outquery.rs send_udp", lambda m: int(m.group(1)))
    mint = grab("dns.MIN_DNS_TIMEOUT", outq, r"const\s+MIN_DNS_TIMEOUT\s*:\s*Duration\s*=\s*Duration::from_millis\(([0-9_]+)\)", "dns/outquery.rs", lambda m: rust_int(m.group(1)))
    maxto = grab("dns.MAX_DNS_TIMEOUT", outq, r"const\s+MAX_DNS_TIMEOUT\s*:\s*Duration\s*=\s*Duration::from_millis\(([0-9_]+)\)", "dns/outquery.rs", lambda m: rust_int(m.group(1)))
    # create_in_reply: source expression of each field of the struct literal
    cir = fn_body(mod, "create_in_reply")
    fields = {}
    if cir:
        m = re.search(r"dnspkt::DNSPkt\s*\{(.*)\}\s*\}\s*$", cir, re.S)
        if m:
            for f, e in re.findall(r"(\w+)\s*:\s*([^,]+?)\s*,", m.group(1) + ","):
                fields[f] = re.sub(r"\s+", "", e)
    want = {"qid": "msg.in_query.qid", "qr": "true", "rcode": "outr.rcode", "question": "msg.in_query.question.clone()",
            "answer": "outr.answer.clone()", "nameserver": "outr.nameserver.clone()", "additional": "outr.additional.clone()"}
    status["dns.createInReplyFields"] = {"ok": bool(fields), "value": {k: fields.get(k) for k in want}, "where": "dns/mod.rs create_in_reply"}
    faithful = {k: fields.get(k) == v for k, v in want.items()}
    # transport limits: what run_udp / run_tcp pass to the serialiser
    ru, rt = fn_body(mod, "run_udp"), fn_body(mod, "run_tcp")
    udp_limited = bool(ru and re.search(r"prepare_to_send\(\s*&in_reply\s*,\s*msg\.in_query\.bufsize\s+as\s+usize\s*,?\s*\)", ru))
    udp_unlimited = bool(ru and re.search(r"in_reply\.serialise\(\)", ru))
    tcp_limited_edns = bool(rt and re.search(r"prepare_to_send\(\s*&in_reply\s*,\s*msg\.in_query\.bufsize\s+as\s+usize\s*,?\s*\)", rt))
    tcp_full = bool(rt and (re.search(r"in_reply\.serialise\(\)", rt) or re.search(r"prepare_to_send\(\s*&in_reply\s*,\s*6553[56]\s*,?\s*\)", rt)))
    status["dns.transportLimits"] = {"ok": bool(ru and rt), "value": {"udp_limited": udp_limited, "udp_unlimited": udp_unlimited,
                                                                     "tcp_limited_to_edns": tcp_limited_edns, "tcp_full": tcp_full}, "where": "dns/mod.rs run_udp/run_tcp"}
    pts = fn_body(mod, "prepare_to_send")
    floor512 = grab("dns.prepareFloor", pts, r"std::cmp::max\(size\s*,\s*([0-9]+)\)", "dns/mod.rs prepare_to_send", lambda m: int(m.group(1)))
    dnspkt = strip_comments(read(os.path.join(CORE, "dns/dnspkt.rs")))
    sws = fn_body(dnspkt, "serialise_with_size")
    spl = grab("dns.spliceRanges", sws, r"ret\.splice\((\d+)\.\.(=?)(\d+),\s*ancount.*?ret\.splice\((\d+)\.\.(=?)(\d+),\s*nscount.*?ret\.splice\((\d+)\.\.(=?)(\d+),\s*adcount",
               "dns/dnspkt.rs serialise_with_size", lambda m: [(int(m.group(i)), int(m.group(i + 2)) + (1 if m.group(i + 1) else 0)) for i in (1, 4, 7)])
    pp = fn_body(dnspkt, "push_prefix")
    lim = grab("dns.pointerLimit", pp, r"if\s+it\.label\s*==\s*\*label\s*(?:&&\s*it\.data\s*<\s*([0-9A-Za-z_]+)\s*)?\{",
               "dns/dnspkt.rs push_prefix", lambda m: rust_int(m.group(1)) if m.group(1) else 65536)
    # how push_prefix stores the offset of a label it has written: every `data:` initialiser in the function
    stores = re.findall(r"\bdata\s*:\s*([^,]+),", pp or "")
    kinds = {"wrap" if re.fullmatch(r"offset\s+as\s+u16", e.strip()) else
             "saturate" if re.fullmatch(r"u16::try_from\(offset\)\.unwrap_or\(u16::MAX\)", re.sub(r"\s+", "", e)) else "unknown" for e in stores}
    store_kind = kinds.pop() if len(kinds) == 1 else "unknown"
    status["dns.offsetStore"] = {"ok": store_kind != "unknown" and len(stores) == 2, "value": store_kind, "where": "dns/dnspkt.rs push_prefix"}
    parse = strip_comments(read(os.path.join(CORE, "dns/parse.rs")))
    depth = grab("dns.pointerDepthLimit", fn_body(parse, "get_domain_into"), r"if\s+depth\s*>\s*([0-9]+)\s*\{", "dns/parse.rs get_domain_into", lambda m: int(m.group(1)))

    # the cache key of the real query path (CacheHandler::handle_query): every field from the query's own field
    cachemod = strip_comments(read(os.path.join(CORE, "dns/cache/mod.rs")))
    hq = fn_body(cachemod, "handle_query")
    mck = re.search(r"let ck = CacheKey \{(.*?)\};", hq or "", re.S)
    ckf = {}
    if mck:
        for f, e in re.findall(r"(\w+)\s*:\s*([^,]+?)\s*,", mck.group(1) + ","):
            ckf[f] = re.sub(r"\s+", "", e)
    ck_want = {"qname": "msg.in_query.question.qdomain.clone()", "qtype": "msg.in_query.question.qtype",
               "edns_do": "msg.in_query.edns_do", "cd": "msg.in_query.cd"}
    mcs = re.search(r"struct CacheKey \{(.*?)\}", cachemod, re.S)
    ck_struct = sorted(re.findall(r"(?m)^\s*(\w+)\s*:", mcs.group(1))) if mcs else []
    ck_ok = ckf == ck_want and ck_struct == sorted(ck_want)
    record("dns.cacheKeyFromQuery", {"literal": ckf, "struct": ck_struct}, "dns/cache/mod.rs CacheKey and handle_query", ok=ck_ok)
    # cookie keys at start: `new()` rotates twice, so neither the current nor the previous key is the all-zero default
    ckn = fn_body(mod, "new", after="impl CookieKeys") if False else None
    mnew = re.search(r"impl CookieKeys \{\s*fn new\(\) -> Self \{(.*?)\n    \}", mod, re.S)
    rotations = len(re.findall(r"\.rotate\(\)", mnew.group(1))) if mnew else None
    defaults = bool(mnew and re.search(r"current: Default::default\(\),\s*previous: Default::default\(\),", mnew.group(1)))
    record("dns.cookieKeyRotationsAtStart", rotations, "dns/mod.rs CookieKeys::new", ok=rotations is not None and defaults)
    gdi = fn_body(parse, "get_domain_into")
    gd = fn_body(parse, "get_domain")
    m_oct = re.search(r"\*octets\s*\+=\s*1\s*\+\s*prefix\s+as\s+usize\s*;\s*if\s+\*octets\s*>\s*([0-9]+)\s*\{\s*return\s+Err", gdi or "")
    m_init = re.search(r"get_domain_into\(\s*&mut\s+domainv\s*,\s*1\s*,\s*&mut\s+1\s*\)", gd or "")
    no_limit = bool(gdi) and "octets" not in gdi and bool(gd) and re.search(r"get_domain_into\(\s*&mut\s+domainv\s*,\s*1\s*\)", gd) is not None
    # a limit on the octets of a decoded name (length octets and root counted, accumulator starts at 1), or none at all
    name_limit = int(m_oct.group(1)) if (m_oct and m_init) else (NO_LIMIT if no_limit else None)
    status["dns.nameOctetLimit"] = {"ok": name_limit is not None, "value": name_limit, "where": "dns/parse.rs get_domain_into / get_domain"}

    def b(k):
        return boolean(faithful.get(k))
    sp = spl or [(0, 0), (0, 0), (0, 0)]
    out = f"""/- GENERATED by tools/extract.py from {REPO} — do not edit. -/
namespace Erbium.Generated.Dns

/-- `GenericTokenBucket::MAX_TOKENS` / `TOKENS_PER_SECOND` (bucket.rs) -/
def maxTokens : Nat := {nat(maxt)}
def tokensPerSecond : Nat := {nat(rate, "1")}
/-- `max((reply*2).saturating_sub(query), FLOOR)` in `should_ratelimit` -/
def costFloor : Nat := {nat(floor, "999999999")}
/-- only REFUSED replies are rate limited; a good cookie returns before charging -/
def ratelimitOnlyRefused : Bool := {boolean(only_refused)}
def goodCookieExempt : Bool := {boolean(good_exempt)}

/-- `if attempts.len() > N {{ return Err(Timeout) }}` in `send_udp`; timeout bounds in ms -/
def retryLimit : Nat := {nat(retry, "999999")}
def minDnsTimeoutMs : Nat := {nat(mint)}
def maxDnsTimeoutMs : Nat := {nat(maxto, "999999999")}

/-- `create_in_reply`: each field of the client reply comes from the expected source expression -/
def replyQidFromQuery : Bool := {b("qid")}
def replyIsResponse : Bool := {b("qr")}
def replyRcodeFromUpstream : Bool := {b("rcode")}
def replyQuestionFromQuery : Bool := {b("question")}
def replyAnswerFromUpstreamAnswer : Bool := {b("answer")}
def replyAuthorityFromUpstreamAuthority : Bool := {b("nameserver")}
def replyAdditionalFromUpstreamAdditional : Bool := {b("additional")}

/-- what the two transports pass to the serialiser -/
def udpLimitedToAdvertised : Bool := {boolean(udp_limited and not udp_unlimited)}
def tcpComplete : Bool := {boolean(tcp_full and not tcp_limited_edns)}
def prepareFloor : Nat := {nat(floor512)}

/-- `ret.splice(a..b, count)` ranges used to rewrite the three section counts after truncation -/
def spliceRanges : List (Nat × Nat) := [({sp[0][0]}, {sp[0][1]}), ({sp[1][0]}, {sp[1][1]}), ({sp[2][0]}, {sp[2][1]})]

/-- `push_prefix` only reuses a suffix-tree node whose offset is below this (65536 = no test) -/
def pointerLimit : Nat := {nat(lim)}

/-- the offset recorded for a written label: `u16::try_from(offset).unwrap_or(u16::MAX)` (true) or `offset as u16` (false) -/
def offsetSaturates : Bool := {boolean(store_kind == "saturate")}

/-- `*octets += 1 + prefix; if *octets > N {{ return Err }}` in `get_domain_into`, the count starting at 1 for the
    root: decoded names longer than N octets are refused ({NO_LIMIT} = the source has no such test) -/
def nameOctetLimit : Nat := {nat(name_limit)}

/-- the key the real query path looks up and stores under is (name, type, DO, CD) of the query itself -/
def cacheKeyFromQuery : Bool := {boolean(ck_ok)}

/-- number of `.rotate()` calls `CookieKeys::new` applies to the all-zero default keys (two: current and previous are
    both random from the start) -/
def cookieKeyRotationsAtStart : Nat := {nat(rotations)}

/-- `if depth > N` in `get_domain_into` (first call has depth 1) -/
def pointerDepthLimit : Nat := {nat(depth)}

end Erbium.Generated.Dns
"""
    write_if_changed(os.path.join(OUT, "Dns.lean"), out)


# ------------------------------------------------------------------------------------------------
GUARD_TOKEN = re.compile(r"\s*(self\.offset|self\.buffer\.len\(\)|self\.size\(\)|[A-Za-z_][A-Za-z_0-9]*|[0-9_]+|<=|>=|==|!=|<|>|\+|\*|\(|\))")


def guard_to_lean(expr, names):
    """translate a small Rust comparison (identifiers, + *, one comparison) into a Lean Bool expression; None if anything
    else occurs. `names` maps Rust atoms to Lean variable names."""
    out = []
    i = 0
    expr = expr.strip()
    while i < len(expr):
        m = GUARD_TOKEN.match(expr, i)
        if not m:
            return None
        t = m.group(1)
        i = m.end()
        if t in names:
            out.append(names[t])
        elif re.fullmatch(r"[0-9_]+", t):
            out.append(str(rust_int(t)))
        elif t in ("<=", ">=", "==", "!=", "<", ">", "+", "*", "(", ")"):
            out.append({"<=": "≤", ">=": "≥", "==": "=", "!=": "≠"}.get(t, t))
        else:
            return None
    return "decide (" + " ".join(out) + ")"


def non_test(src):
    """the part of a source file before its tests"""
    cut = len(src)
    for pat in (r"^#\[cfg\(test\)\]", r"^#\[test\]", r"^#\[tokio::test\]"):
        m = re.search(pat, src, re.M)
        if m:
            cut = min(cut, m.start())
    return src[:cut]


RAW_OP = re.compile(r"(?<![#!\w])(?:\w+(?:\.\w+)*)\[[^\[\]]+\]|\.unwrap\(\)|\.expect\(|\bpanic!|\bunimplemented!|\bunreachable!|\bassert!|\bassert_eq!|(?<=\S) - (?=\S)|\bas u8\b|\bas u16\b")


def census(path, skip_fns=()):
    """sorted multiset of the operations in a decoder source that can panic (index/slice expressions, unwrap/expect,
    panicking macros, binary minus, narrowing casts), outside tests and the listed functions"""
    src = non_test(strip_comments(read(path)))
    for f in skip_fns:
        while True:
            b = fn_body(src, f)
            if not b or b == "{}":
                break
            src = src.replace(b, "{ }", 1)
            src = re.sub(r"\bfn\s+" + re.escape(f) + r"\b", "fn_skipped_" + f, src, count=1)
    found = {}
    for m in RAW_OP.finditer(src):
        k = re.sub(r"\s+", "", m.group(0))
        found[k] = found.get(k, 0) + 1
    return found


def gen_pkt():
    pp = strip_comments(read(os.path.join(CORE, "pktparser/mod.rs")))
    dp = strip_comments(read(os.path.join(CORE, "dns/parse.rs")))
    ic = strip_comments(read(os.path.join(CORE, "radv/icmppkt.rs")))
    ll = strip_comments(read(os.path.join(CORE, "lldp/lldppkt.rs")))
    lm = strip_comments(read(os.path.join(CORE, "lldp/mod.rs")))
    dm = strip_comments(read(os.path.join(CORE, "dhcp/mod.rs")))
    dk = strip_comments(read(os.path.join(CORE, "dhcp/dhcppkt.rs")))
    dn = strip_comments(read(os.path.join(CORE, "dns/dnspkt.rs")))
    net = strip_comments(read(os.path.join(NET, "lib.rs")))
    L = ["-- generated by tools/extract.py from the packet decoders; do not edit", "namespace Erbium.Generated.Pkt"]

    def guard(item, body, pattern, names, params, where):
        """`if <cond> {` inside the function body -> def item (params) : Bool"""
        g = grab("pkt." + item, body, pattern, where, lambda m: guard_to_lean(m.group(1), names))
        if g is None:
            status["pkt." + item]["ok"] = False
            g = "false"        # sentinel: the guarded raw operation is then never protected in the model
        L.append("def %s (%s : Nat) : Bool := %s" % (item, " ".join(params), g))

    nm = {"self.offset": "off", "self.buffer.len()": "len", "self.size()": "len"}
    guard("bufGetU8Guard", fn_body(pp, "get_u8"), r"^\s*\{\s*if\s+([^{]+?)\s*\{\s*let ret = self\.buffer\[self\.offset\];", nm, ["off", "len"], "pktparser get_u8")
    guard("bufPeekU8Guard", fn_body(pp, "peek_u8"), r"^\s*\{\s*if\s+([^{]+?)\s*\{\s*Some\(self\.buffer\[self\.offset\]\)", nm, ["off", "len"], "pktparser peek_u8")
    guard("bufGetBytesGuard", fn_body(pp, "get_bytes"), r"^\s*\{\s*if\s+([^{]+?)\s*\{\s*let ret = &self\.buffer\[self\.offset\.\.self\.offset \+ b\];",
          dict(nm, b="b"), ["off", "b", "len"], "pktparser get_bytes")
    guard("bufGetBufferGuard", fn_body(pp, "get_buffer"), r"^\s*\{\s*if\s+([^{]+?)\s*\{\s*let ret = Buffer \{\s*buffer: &self\.buffer\[self\.offset\.\.self\.offset \+ b\],",
          dict(nm, b="b"), ["off", "b", "len"], "pktparser get_buffer")
    guard("bufSetOffsetGuard", fn_body(pp, "set_offset"), r"^\s*\{\s*if\s+([^{]+?)\s*\{\s*self\.offset = o;", dict(nm, o="o"), ["o", "len"], "pktparser set_offset")
    guard("dnsPeekU8Guard", fn_body(dp, "peek_u8"), r"^\s*\{\s*if\s+([^{]+?)\s*\{\s*Ok\(self\.buffer\[self\.offset\]\)", nm, ["off", "len"], "dns/parse.rs peek_u8")
    guard("dnsGetBytesGuard", fn_body(dp, "get_bytes"), r"^\s*\{\s*if\s+([^{]+?)\s*\{\s*let ret = self\.buffer\[self\.offset\.\.self\.offset \+ count\]\.to_vec\(\);",
          dict(nm, count="count"), ["off", "count", "len"], "dns/parse.rs get_bytes")
    guard("ednsOptShort", fn_body(dp, "get_option"), r"if\s+([^{]+?)\s*\{\s*return Err\(format!\(\s*\"Truncated EDNS Option",
          {"self.buffer.len()": "buflen", "len": "len"}, ["buflen", "len"], "dns/parse.rs EdnsParser::get_option")
    # ICMPv6
    ipar = fn_body(ic, "parse")
    iopt = fn_body(ic, "parse_nd_rtr_options")
    v = grab("pkt.icmpMinLen", ipar, r"if\s+pkt\.len\(\)\s*<\s*([0-9]+)\s*\{\s*return Err\(Error::Truncated\)", "icmppkt parse", lambda m: int(m.group(1)))
    L.append("def icmpMinLen : Nat := %s" % nat(v))
    v = grab("pkt.icmpZeroLenRejected", iopt, r"if\s+l\s*==\s*0\s*\{\s*return Err\(Error::Truncated\);\s*\}\s*let data = buf\.get_bytes\(", "icmppkt parse_nd_rtr_options", lambda m: True)
    L.append("def icmpZeroLenRejected : Bool := %s" % boolean(v))
    v = grab("pkt.icmpOptDataLen", iopt, r"buf\.get_bytes\(l \* ([0-9]+) - ([0-9]+)\)", "icmppkt parse_nd_rtr_options", lambda m: (int(m.group(1)), int(m.group(2))))
    L.append("def icmpOptUnit : Nat := %s" % nat(v[0] if v else None))
    L.append("def icmpOptHeader : Nat := %s" % nat(v[1] if v else None, "1000000"))

    def lencheck(item, const):
        r = grab("pkt." + item, iopt, r"\(" + const + r", value\) => \{(?:\s*use [^;]+;)*\s*if value\.len\(\) != ([0-9 *\-]+)\{", "icmppkt " + const,
                 lambda m: eval(m.group(1), {"__builtins__": {}}))
        L.append("def %s : Nat := %s" % (item, nat(r)))
    lencheck("icmpPref64Len", "PREF64")
    lencheck("icmpMtuLen", "MTU")
    lencheck("icmpPrefixLen", "PREFIX_INFO")
    # LLDP
    v = grab("pkt.lldpMgmtLenChecked", fn_body(ll, "from_wire", 9) or "", r"let mgmt_addr_len = buf\s*\.get_u8\(\)\s*\.ok_or\([^)]*\)\?\s*\.checked_sub\(1\)\s*\.ok_or_else\(",
             "lldppkt ManagementAddress::from_wire", lambda m: True)
    if v is None:   # locate by content rather than by ordinal
        v = grab("pkt.lldpMgmtLenChecked", ll, r"let mgmt_addr_len = buf\s*\.get_u8\(\)\s*\.ok_or\([^)]*\)\?\s*\.checked_sub\(1\)\s*\.ok_or_else\(",
                 "lldppkt ManagementAddress::from_wire", lambda m: True)
    L.append("def lldpMgmtLenChecked : Bool := %s" % boolean(v))
    v = grab("pkt.lldpFrameChecked", fn_body(lm, "decode_frame"), r"let pdu = frame\s*\.get\(([0-9]+)\.\.\)\s*\.ok_or\(", "lldp/mod.rs decode_frame", lambda m: int(m.group(1)))
    used = grab("pkt.lldpFrameDecodeUsed", fn_body(lm, "run"), r"match decode_frame\(&msg\.buffer\)", "lldp/mod.rs run", lambda m: True)
    L.append("def lldpFrameChecked : Bool := %s" % boolean(v is not None and used))
    L.append("def lldpHeaderLen : Nat := %s" % nat(v, "14"))
    # DHCP
    v = grab("pkt.dhcpToArrayChecked", fn_body(dm, "to_array"), r"^\s*\{\s*mac\.get\(0\.\.6\)\?\.try_into\(\)\.ok\(\)\s*\}\s*$", "dhcp/mod.rs to_array", lambda m: True)
    L.append("def dhcpToArrayChecked : Bool := %s" % boolean(v))
    v = grab("pkt.dhcpHlenChecked", fn_body(dk, "parse"), r"if hlen as usize > chaddr\.len\(\) \{\s*return Err\(ParseError::InvalidPacket\);\s*\}", "dhcppkt parse", lambda m: True)
    L.append("def dhcpHlenChecked : Bool := %s" % boolean(v))
    v = grab("pkt.subnetPrefixLenMax", fn_body(net, "new"), r"^\s*\{\s*if prefixlen > ([0-9]+) \{\s*return Err\(Error::InvalidSubnet\);\s*\}", "erbium-net Ipv4Subnet::new", lambda m: int(m.group(1)))
    L.append("def subnetPrefixLenMax : Option Nat := %s" % ("some %d" % v if v is not None else "none"))
    # EDNS accessors
    v = grab("pkt.cookieMinLen", fn_body(dn, "get_cookie"), r"\.filter\(\|opt\| opt\.data\.len\(\) >= ([0-9]+)\)\s*\.map\(\|opt\| \(&opt\.data\[\.\.8\], opt\.data\.get\(8\.\.\)\)\)", "dnspkt get_cookie", lambda m: int(m.group(1)))
    L.append("def cookieMinLen : Nat := %s" % nat(v))
    v = grab("pkt.edeMinLen", fn_body(dn, "get_extended_dns_error"), r"\.filter\(\|opt\| opt\.data\.len\(\) >= ([0-9]+)\)\s*\.map\(\|opt\| \{\s*\(\s*EdeCode\(u16::from_be_bytes\(\[opt\.data\[0\], opt\.data\[1\]\]\)\),\s*String::from_utf8_lossy\(&opt\.data\[2\.\.\]\)", "dnspkt get_extended_dns_error", lambda m: int(m.group(1)))
    L.append("def edeMinLen : Nat := %s" % nat(v))
    # configuration loader (C19)
    cf = strip_comments(read(os.path.join(CORE, "config.rs")))
    v = grab("cfg.typeNameChecked", fn_body(cf, "type_to_name"), r"yaml::Yaml::Array\(a\) => match a\.first\(\) \{\s*Some\(first\) => format!\(\"Array of \{\}\", type_to_name\(first\)\),\s*None => \"empty Array\"\.into\(\),\s*\}",
             "config.rs type_to_name", lambda m: True)
    L.append("def cfgTypeNameChecked : Bool := %s" % boolean(v))
    sd = fn_body(cf, "str_duration") or ""
    ok = all(re.search(p_, sd, re.S) for p_ in (
        r"num\.unwrap_or\(0_u64\)\s*\.checked_mul\(10\)\s*\.and_then\(\|n\| n\.checked_add\(digit\)\)\s*\.ok_or_else\(too_large\)\?",
        r"let n = num\.take\(\)\.ok_or_else\(",
        r"n\.checked_mul\(scale\)\s*\.and_then\(\|secs\| ret\.checked_add\(std::time::Duration::from_secs\(secs\)\)\)\s*\.ok_or_else\(too_large\)",
        r"'s' => ret = add\(ret, &mut num, 1, c\)\?,\s*'m' => ret = add\(ret, &mut num, 60, c\)\?,\s*'h' => ret = add\(ret, &mut num, 3600, c\)\?,\s*'d' => ret = add\(ret, &mut num, 86400, c\)\?,\s*'w' => ret = add\(ret, &mut num, 7 \* 86400, c\)\?,",
        r"if num\.is_some\(\) \{\s*ret = add\(ret, &mut num, 1, 's'\)\?;\s*\}")) and not re.search(r"\.unwrap\(\)|\+=|[^_]\* 60", sd)
    record("cfg.durationChecked", ok, "config.rs str_duration", ok=ok)
    L.append("def cfgDurationChecked : Bool := %s" % boolean(ok))
    v = grab("cfg.hexdigitArms", fn_body(cf, "hexdigit"), r"b'A'\.\.=b'F' => Ok\(c - b'A' \+ 10\),\s*b'a'\.\.=b'f' => Ok\(c - b'a' \+ 10\),\s*b'0'\.\.=b'9' => Ok\(c - b'0'\),\s*_ => Err\(",
             "config.rs hexdigit", lambda m: True)
    L.append("def cfgHexdigitArms : Bool := %s" % boolean(v))
    okS, okL = True, True
    for fname, lim in (("str_prefix", None), ("str_prefix4", "32"), ("str_prefix6", "128")):
        b = fn_body(cf, fname) or ""
        okS = okS and bool(re.search(r"if sections\.len\(\) != 2 \{\s*Err\(", b)) and len(re.findall(r"sections\[", b)) == 2
        if lim:
            okL = okL and bool(re.search(r"Ok\(Some\(_\)\) if prefixlen > %s => Err\(prefix_too_long" % lim, b))
        else:
            okL = okL and bool(re.search(r"V4\(_\)\)\) if prefixlen > 32 =>", b)) and bool(re.search(r"V6\(_\)\)\) if prefixlen > 128 =>", b))
    record("cfg.sectionsChecked", okS, "config.rs str_prefix*", ok=okS)
    record("cfg.prefixLenChecked", okL, "config.rs str_prefix*", ok=okL)
    L.append("def cfgSectionsChecked : Bool := %s" % boolean(okS))
    L.append("def cfgPrefixLenChecked : Bool := %s" % boolean(okL))
    L.append("end Erbium.Generated.Pkt")
    write_if_changed(os.path.join(OUT, "Pkt.lean"), "\n".join(L) + "\n")
    # census of the operations that can panic, per decoder source: the model has one primitive per entry
    pin_path = os.path.join(os.path.dirname(os.path.abspath(__file__)), "census.json")
    pinned = json.load(open(pin_path)) if os.path.exists(pin_path) else {}
    files = {"pktparser": (os.path.join(CORE, "pktparser/mod.rs"), ("fmt",)),
             "dnsparse": (os.path.join(CORE, "dns/parse.rs"), ()),
             "icmppkt": (os.path.join(CORE, "radv/icmppkt.rs"), ("arbitrary", "serialise_router_advertisement", "serialise", "find_option")),
             "lldppkt": (os.path.join(CORE, "lldp/lldppkt.rs"), ("to_wire", "validate_format", "fmt")),
             "lldpmod": (os.path.join(CORE, "lldp/mod.rs"), ()),
             "config": (os.path.join(CORE, "config.rs"), ()),
             "dhcpconfig": (os.path.join(CORE, "dhcp/config.rs"), ()),
             "radvconfig": (os.path.join(CORE, "radv/config.rs"), ()),
             "dnsconfig": (os.path.join(CORE, "dns/config.rs"), ()),
             "acl": (os.path.join(CORE, "acl.rs"), ())}
    cur = {k: census(p, skip) for k, (p, skip) in files.items()}
    if os.environ.get("VERIF_PIN_CENSUS"):
        json.dump(cur, open(pin_path, "w"), indent=1, sort_keys=True)
        pinned = cur
    for k in files:
        status["census." + k] = {"ok": cur[k] == pinned.get(k), "value": cur[k], "where": files[k][0].replace(REPO + "/", "")}


def gen_net():
    sock = strip_comments(read(os.path.join(NET, "socket.rs")))
    udp = strip_comments(read(os.path.join(NET, "udp.rs")))
    outq = strip_comments(read(os.path.join(CORE, "dns/outquery.rs")))
    pat = r"\{\s*libc::in_addr\s*\{\s*s_addr:\s*u32::from_ne_bytes\(addr\.octets\(\)\),\s*\}\s*\}\s*$"
    ok = all(re.search(pat, fn_body(src, "std_to_libc_in_addr") or "") for src in (sock, udp))
    record("net.inAddrFromNeBytes", ok, "erbium-net socket.rs / udp.rs std_to_libc_in_addr", ok=ok)
    used = bool(re.search(r"in_pktinfo\.ipi_spec_dst = std_to_libc_in_addr\(ip\);", fn_body(sock, "send_msg") or ""))
    record("net.replySourceFromSendFrom", used, "erbium-net socket.rs send_msg", ok=used)
    stq = fn_body(outq, "send_tcp_query") or ""
    fresh = bool(re.search(r"let orig_qid = msg\.out_query\.qid;\s*let mut qid = orig_qid;\s*while self\.qid2reply\.contains_key\(&qid\) \{\s*qid = qid\.wrapping_add\(1\);\s*if qid == orig_qid \{", stq)) \
        and bool(re.search(r"msg\.out_query\.qid = qid;\s*self\.qid2reply\.insert\(qid, \(orig_qid, msg\.out_reply\)\);", stq)) and "assert!" not in stq
    record("dns.muxFreshId", fresh, "dns/outquery.rs send_tcp_query", ok=fresh)
    str_ = fn_body(outq, "send_tcp_reply") or ""
    restore = bool(re.search(r"if let Some\(\(orig_qid, resp\)\) = self\.qid2reply\.remove\(&qid\) \{\s*let _ = resp\.send\(reply\.map\(\|mut pkt\| \{\s*pkt\.qid = orig_qid;\s*pkt\s*\}\)\);", str_))
    gone = restore and ".unwrap()" not in (fn_body(outq, "tcp_teardown") or ".unwrap()") and ".unwrap()" not in str_
    record("dns.muxRestoresCallerId", restore, "dns/outquery.rs send_tcp_reply", ok=restore)
    record("dns.muxSendIgnoresGoneWaiter", gone, "dns/outquery.rs send_tcp_reply / tcp_teardown", ok=gone)
    run = fn_body(outq, "run") or ""
    resets = bool(re.search(r"Ok\(sock\) => self\.tcp = Some\(sock\),.*?\}\s*self\.tcp_last_recv_activity = Instant::now\(\);\s*self\.tcp_last_send_activity = Instant::now\(\);\s*if let Err\(e\) = self\.send_tcp_query\(msg\)\.await", run, re.S))
    record("dns.muxConnectResetsTimers", resets, "dns/outquery.rs TcpNameserver::run", ok=resets)
    idle = [int(x) for x in re.findall(r"sleep_until\(last_(?:send|recv)_activity \+ std::time::Duration::from_secs\(([0-9]+)\)\)", run)]
    record("dns.muxIdleSeconds", idle, "dns/outquery.rs TcpNameserver::run", ok=len(idle) == 2 and idle[0] == idle[1])
    su = fn_body(outq, "send_udp") or ""
    cl1 = bool(re.search(r"\*timeout = std::cmp::max\(\s*std::cmp::min\(new_timeout, MAX_DNS_TIMEOUT\),\s*MIN_DNS_TIMEOUT\);", su))
    cl2 = bool(re.search(r"\*timeout = std::cmp::max\(\s*std::cmp::min\(std::cmp::max\(\*timeout, new_timeout\), MAX_DNS_TIMEOUT\),\s*MIN_DNS_TIMEOUT\);", su))
    nwrites = len(re.findall(r"\*timeout\s*=", su))
    clamped = cl1 and cl2 and nwrites == 2
    record("dns.timeoutUpdatesClamped", clamped, "dns/outquery.rs send_udp (both writes of DNS_TIMEOUT)", ok=clamped)
    L = ["-- generated by tools/extract.py; do not edit", "namespace Erbium.Generated.Net",
         "/-- every write of the adaptive DNS_TIMEOUT is `max(min(_, MAX), MIN)` -/",
         "def timeoutUpdatesClamped : Bool := %s" % boolean(clamped),
         "/-- a newly opened upstream TCP connection starts with fresh send/receive timestamps -/",
         "def muxConnectResetsTimers : Bool := %s" % boolean(resets),
         "def muxIdleSeconds : Nat := %s" % (idle[0] if len(idle) == 2 and idle[0] == idle[1] else 0),
         "/-- `std_to_libc_in_addr` builds `s_addr` with `u32::from_ne_bytes(addr.octets())` -/",
         "def inAddrFromNeBytes : Bool := %s" % boolean(ok),
         "/-- `send_tcp_query` picks the next free id instead of asserting that the caller's id is free -/",
         "def muxFreshId : Bool := %s" % boolean(fresh and restore),
         "def muxSendIgnoresGoneWaiter : Bool := %s" % boolean(gone),
         "end Erbium.Generated.Net"]
    write_if_changed(os.path.join(OUT, "Net.lean"), "\n".join(L) + "\n")


def gen_ra():
    """how `serialise_router_advertisement` narrows the option lengths of the three options whose size the configuration decides"""
    ic = strip_comments(read(os.path.join(CORE, "radv/icmppkt.rs")))
    body = fn_body(ic, "serialise_router_advertisement") or ""
    m = re.search(r"for chunk in servers\.chunks\(([0-9]+)\) \{\s*v\.serialise\(RDNSS\.0\);\s*v\.serialise\(u8::try_from\(1 \+ chunk\.len\(\) \* 2\)\.unwrap\(\)\);", body)
    old_rdnss = bool(re.search(r"v\.serialise\(RDNSS\.0\);\s*v\.serialise\(u8::try_from\(1 \+ servers\.len\(\) \* 2\)\.unwrap\(\)\);", body))
    chunk = int(m.group(1)) if m else (0 if old_rdnss else None)
    record("ra.rdnssChunk", chunk, "radv/icmppkt.rs serialise_router_advertisement (RDNSS)", ok=chunk is not None)
    d_new = bool(re.search(r"let units = match u8::try_from\(1 \+ dnssl\.v\.len\(\) / 8\) \{\s*Ok\(units\) => units,\s*Err\(_\) => \{.*?continue;\s*\}\s*\};\s*v\.serialise\(DNSSL\.0\);\s*v\.serialise\(units\);", body, re.S))
    d_old = bool(re.search(r"v\.serialise\(DNSSL\.0\);\s*v\.serialise\(1 \+ \(dnssl\.v\.len\(\) / 8\) as u8\);", body))
    record("ra.dnsslLengthChecked", d_new, "radv/icmppkt.rs serialise_router_advertisement (DNSSL)", ok=d_new != d_old)
    c_new = bool(re.search(r"let units = match u8::try_from\(1 \+ b\.len\(\) / 8\) \{\s*Ok\(units\) if !url\.contains\('\\0'\) => units,\s*_ => \{.*?continue;\s*\}\s*\};\s*v\.serialise\(CAPTIVE_PORTAL\.0\);\s*v\.serialise\(units\);", body, re.S))
    c_old = bool(re.search(r"v\.serialise\(CAPTIVE_PORTAL\.0\);\s*v\.serialise\(\(1 \+ b\.len\(\) / 8\) as u8\);", body))
    record("ra.captiveLengthChecked", c_new, "radv/icmppkt.rs serialise_router_advertisement (captive portal)", ok=c_new != c_old)
    L = ["-- generated by tools/extract.py; do not edit", "namespace Erbium.Generated.Ra",
         "/-- `servers.chunks(N)`: addresses per RDNSS option (0 = the source writes one option, whatever the number) -/",
         "def rdnssChunk : Nat := %s" % nat(chunk),
         "/-- the DNSSL option is left out (with a warning) when its length does not fit the length octet, instead of `as u8` -/",
         "def dnsslLengthChecked : Bool := %s" % boolean(d_new),
         "/-- the captive-portal option is left out when its length does not fit or the URL contains a NUL, instead of `as u8` -/",
         "def captiveLengthChecked : Bool := %s" % boolean(c_new),
         "end Erbium.Generated.Ra"]
    write_if_changed(os.path.join(OUT, "Ra.lean"), "\n".join(L) + "\n")


def main():
    os.makedirs(OUT, exist_ok=True)
    gens = [gen_dhcp, gen_pool, gen_acl, gen_dns, gen_pkt, gen_net, gen_ra]
    for g in gens:
        try:
            g()
        except Exception as e:  # fail closed: record, never keep a stale file
            status["generator." + g.__name__] = {"ok": False, "value": repr(e), "where": g.__name__}
            stale = os.path.join(OUT, g.__name__[4:].capitalize() + ".lean")
            if os.path.exists(stale):
                os.unlink(stale)
    write_if_changed(os.path.join(OUT, "STATUS.json"), json.dumps(status, indent=1, sort_keys=True) + "\n")
    bad = [k for k, v in status.items() if not v["ok"]]
    if bad:
        print("extract: MISSING " + " ".join(bad))
    return 0


if __name__ == "__main__":
    sys.exit(main())
