#!/usr/bin/env python3
"""Regenerates MANIFEST.json from the table below (keeps it schema-valid and complete)."""
import json, os, subprocess
ROOT = os.path.join(os.path.dirname(os.path.abspath(__file__)), "..")

TECH = "Lean 4 proof (induction over histories / structural induction / omega) + model-implementation correspondence"
CLAIMS = {
 "C01": ("Lean 4 theorem C01_no_double_lease: in every state reachable by any finite history of grants (any clients, requested addresses, pools changing per message, lease bounds), clock advances and restarts, at every instant no address has two different clients with unexpired leases told to them; by the invariant 'an unexpired belief is backed by the stored row', preserved by every allowed outcome of select_address (SQL ties, hash order and the second clock read are nondeterministic in the model). Tied to pool.rs by extraction of the SQL comparison operators/ORDER BY clauses and by differential histories against the real Pool (allowed-outcome membership + table equality after every op) with the no-double-lease predicate evaluated on the implementation's replies.",
         "Trusted: Lean kernel; SQLite as a finite map with INSERT OR REPLACE / ORDER BY semantics; packets handled one at a time (tokio mutex outside the model); clock monotone; harness owns the clock by overriding clock_gettime."),
 "C06": ("Lean 4 theorems over the cache state machine (store / expire / clock advance, any history from an empty cache): C06_served_within_ttl (a lookup served from cache comes from an entry stored under exactly the queried key, at an age not exceeding the smallest TTL over all three sections, with every TTL = original minus whole seconds elapsed, computed without underflow), C06_never_panics, C06_miss_after_ttl, C06_zero_ttl_not_cached, C06_store_touches_one_key; by the invariant 'lifetime = min TTL of the stored reply > 0 and birth <= now'. Tied to the code by driving the cache's own insert_cache_entry / get_entry / expire / calculate_expiry (hook) under tokio's paused clock on histories with TTLs 0..2^32-1 and lookups landing +-1 ns around expiry, compared with the model and judged by an oracle computed from the inputs alone.",
         "Trusted: Lean kernel; HashMap as a finite map; tokio's paused clock; only class IN reaches the cache (checked in handle_query before the key is built - covered by the end-to-end rig, not by this suite)."),
 "C16": ("Lean 4 theorems: C16_bucket_bounded (for every arrival sequence in [t1,t2] the granted volume of one bucket is at most MAX_TOKENS + TOKENS_PER_SECOND*(t2-t1); potential argument, induction over the sequence), C16_limiter_charges_one (hence twice that per source), C16_quiet_client_served + C16_floor_fits_capacity (after an idle refill period any charge up to the capacity, in particular the minimum charge, is granted), C16_cost_covers_reply, C16_only_refused_and_good_cookie_exempt (shape of should_ratelimit), and for cookies with HMAC uninterpreted: C16_cookie_exempt_iff, C16_cookie_not_transferable (under an explicit collision-resistance hypothesis), C16_cookie_expires_after_two_rotations. Constants regenerated from bucket.rs / mod.rs. Correspondence: GenericTokenBucket under a virtual Clock; should_ratelimit sequences with the real limiter, real HMAC cookies issued by the server, key rotations and forged / foreign / truncated cookies.",
         "Trusted: hmac/sha2; collision resistance is a hypothesis of the non-transferability theorem; one query at a time (check-then-deplete is not atomic); other sources hashing onto the same buckets are outside the single-source quantifier."),
 "C08": ("Lean 4 theorems: C08_subnet_v4/_v6 (for every prefix length and every written address, host bits set or not, containment = equality of the top len bits; via a bit-level lemma about and-ing with the netmask), C08_mapped_client (IPv4 clients seen as ::ffff:a.b.c.d), C08_first_match_decides / C08_no_match_refused / C08_granted_iff (granted iff the first matching rule has the permission, for every rule list), C08_rule_conditions, C08_http_arms_guarded (every arm of the HTTP router, regenerated from serve_request, is behind its documented permission) and C08_dns_acl_before_everything (statement order of the DNS entry point). Correspondence: acl::require_permission on generated rule lists x clients at every prefix boundary, judged by the model and by an independent first-match specification.",
         "Trusted: Lean kernel; extract.py for the HTTP match arms and the DNS handler's statement order (these need live sockets to execute, so they are tied by translation, not executed); nix/NetAddr address classification. The v4 client against ::ffff:a.b.c.d/(96+n) prefix rule is covered by the correspondence only (no theorem yet)."),
 "C20": ("Lean 4 theorems C20_gauges (for every store incl. the empty one the SQL of get_pool_metrics - comparison operators, COALESCE and column order regenerated from the source - returns (|expiry>now|, |expiry<=now|) in the order (active, expired)) and C20_gauges_partition. The listing is modelled byte for byte (leases_json: decimal/hex/dotted-quad printers, JSON string escaper) and tied to http::leases_json by exact output equality on tables whose client ids and host names are drawn from all byte strings; a strict RFC 8259 parser (independent reading) is the oracle for validity and for 'one entry per lease with that lease's fields'.",
         "Trusted: as C01; String::from_utf8_lossy (std). The listing half is currently decided by correspondence + oracle; the denotation theorem for the renderer (Denotes (render rows) ...) is not yet proved - stated in DESIGN.md."),
 "C09": ("Lean 4 theorems over the same store model: C09_keeps_address (a client holding an unexpired lease inside the serving pool gets an address it holds there, the named one if it names one it holds), C09_refusal_only_when_exhausted (NoAssignableAddress implies every pool address is held unexpired by another client), C09_ack_after_offer (after an offer of x, whatever other clients do and however time passes before expiry, a request naming x from any pool containing x yields x). Correspondence as C01, with the C09 predicates evaluated on the implementation's observations.",
         "As C01. The theorems are about select_address/allocate_address; the mapping DISCOVER/REQUEST -> (client id, requested address) is covered by the dhcp-level correspondence (C13)."),
 "C10": ("Lean 4 theorems: C10_bounds (for every proposed duration the advertised lease lies in [min,max]), C10_record (the row written starts at the clock read after the request, lasts exactly the advertised time and so never expires before t+L), C10_start_le_expiry (invariant over all histories that discharges the u32 subtraction), C10_offer_and_ack_carry_lease_time (every reply of handle_pkt, OFFER and ACK alike, carries option 51 = the granted lease within the default bounds, equal to the recorded duration) and the extracted defaults 300/86400. Tied to the code by pool histories (allocate_address) and by packet histories through dhcp::handle_pkt on configurations loaded by the real loader, with the C10 predicates evaluated on the implementation's replies and rows.",
         "As C01; apply-default-lease / apply-max-lease are parsed but never reach allocate_address (observation, outside the statement: bounds are the defaults). u32 casts exact until 2106 (C10_no_wrap)."),
 "C13": ("Lean 4 theorems over the handle_pkt model (Handles relation: dispatch, foreign server-id test, policy evaluation, pool step, reply builders): C13_replied_only_for_this_server, C13_no_reply_no_change (any refusal leaves the store identical), C13_only_own_row, C13_reply_echoes (xid, chaddr, giaddr, flags, server identifier of this server), for every configuration, store and decoded message. Tied to the code by the extracted dispatch shape and by differential packet histories through dhcp::handle_pkt (every message type, own/foreign/malformed server-id) comparing the full reply (all options) and the lease table after every packet.",
         "As C01; yaml_rust/loader trusted to produce the policy tree the harness dumps; the serverids set is passed in by the caller (recvdhcp adds the identifiers it used)."),
 "C12": ("Lean 4 theorems, for all inputs: parse(serialise m)=m for every well-formed DHCP message with option values of any length in any map order; Ethernet/IPv4/UDP frame layout, lengths and both one's-complement checksums verify for every payload <= 65507; broadcast test = MSB for all 65536 flag values (kernel enumeration over the mask regenerated from the source) and destination choice. The model is tied to the code by byte-exact differential runs of dhcppkt::parse / Dhcp::serialise / Fragment::new_udp4 / get_broadcast_flag against the model and by an independent frame validator as oracle.",
         "Trusted: Lean kernel (axioms propext, Quot.sound only), extract.py regexes for the mask/magic/destination shape, the harness generator. The destination choice sits in an async fn that needs sockets: its shape is extracted, not executed. HashMap iteration order modelled as arbitrary."),
}
NOT_YET = "not yet built in this revision (work in progress; planned per DESIGN.md §4)"


def main():
    hooks = subprocess.run(["git", "-C", "/repo", "log", "--format=%h %s", "--grep=^verif hook"], stdout=subprocess.PIPE, text=True).stdout.strip().split("\n")
    m = {
        "version": 1,
        "setup_cmd": "./setup.sh",
        "hooks": {"guard": "cargo feature `verif-hooks` on erbium-core",
                  "enable": "the harness crate depends on erbium-core with features=[\"verif-hooks\"] (path dependency on /repo/crates/erbium-core)",
                  "baseline_off_cmd": "cd /repo && cargo test --workspace --no-fail-fast --offline",
                  "source_commits": [h for h in hooks if h], "add_only": True},
        "engines": [{"name": "lean-proof+correspondence", "path": "check", "serves_properties": sorted(CLAIMS),
                     "kind_free_text": "Lean 4 theorems over hand-written executable models; models tied to /repo by a translator for constants/tables (tools/extract.py -> Generated/*.lean) and by a differential correspondence check (Rust harness calling the real code vs compiled Lean driver) on every run"}],
        "checks": [], "notes": "see DESIGN.md; known findings and fixed defects in KNOWN_FINDINGS.txt", "not_applicable": []}
    for pid in sorted(CLAIMS):
        text, note = CLAIMS[pid]
        m["checks"].append({
            "property_id": pid, "quick_cmd": "./check %s --tier quick" % pid, "thorough_cmd": "./check %s --tier thorough" % pid,
            "evidence_file": "/verif/evidence/%s.json" % pid, "replay_cmd_template": "./check %s --replay {path}" % pid,
            "engine": "lean-proof+correspondence",
            "level_claimed": {"category": "proof", "text": text, "design_ref": "DESIGN.md §4 %s" % pid},
            "level_note": note, "technique": TECH})
    for i in range(1, 21):
        pid = "C%02d" % i
        if pid not in CLAIMS:
            m["not_applicable"].append({"property_id": pid, "reason": NOT_YET})
    json.dump(m, open(os.path.join(ROOT, "MANIFEST.json"), "w"), indent=1)


if __name__ == "__main__":
    main()
