#!/usr/bin/env python3
"""Prints the prompt given to a fresh sub-agent asked to seed a property-breaking change (used only while developing the checks)."""
import json, sys
pid = sys.argv[1]
wt = sys.argv[2]
out = sys.argv[3]
for l in open('/verif/properties.jsonl'):
    d = json.loads(l)
    if d['id'] == pid:
        break
else:
    sys.exit("no such property")
print(f"""You are helping to evaluate a verification effort by playing the part of a developer who introduces a realistic regression.

The project is isomer/erbium (Rust: DNS forwarder/cache, DHCPv4 server with SQLite lease pool, IPv6 router advertisements, LLDP). You have your own scratch git worktree of it at {wt} (already created; work ONLY there, never in /repo, and do not read or touch /verif). The sandbox has no network: always pass --offline to cargo. Use CARGO_TARGET_DIR={wt}/target so builds stay inside your worktree.

Here is one semantic property the code currently satisfies:

  id: {d['id']}
  title: {d['title']}
  statement: {d['statement']}
  quantifier: {d['quantifier']['text']}
  anchors: {json.dumps(d['anchors'])}

Your job: produce TWO independent source changes (in different functions / mechanisms if at all possible), each of which
  1. is the kind of change a real developer could plausibly make (a refactor gone slightly wrong, an off-by-one, a wrong comparison or operator, a dropped or reordered step, a missing check on one path, a wrong constant, a wrong field) - small, a few lines;
  2. BREAKS the property above (for at least one input / state / history the property's statement becomes false);
  3. still compiles, and `cargo test --workspace --offline` still passes all tests in the changed worktree (99 tests; run it to confirm);
  4. needs something specific to manifest - a particular input shape, boundary value, state, ordering or history - rather than failing on every input (so that a casual smoke test would not notice);
  5. touches only non-test source code under crates/ (no test edits, no Cargo changes).

For each change also write a demonstration: the simplest thing that shows the property failing on the changed code and holding on the unchanged code. The preferred form is a Rust `#[test]` added as a separate patch (demo.diff) on top of the change, placed in the relevant module's test section so it can reach private items, which FAILS with the change and PASSES without it; run it both ways and record the commands and outputs. 

Deliver into the directory {out} (create it):
  {out}/1/patch.diff   - `git diff` of the source change only (applies with `git apply` to a clean checkout of the same commit)
  {out}/1/demo.diff    - the demonstration test as a patch applying on top of patch.diff (and also on the clean tree)
  {out}/1/meta.json    - {{"property": "{pid}", "summary": "...what was changed...", "files": [...], "trigger": "...what specific input/state/history makes it manifest...", "demo_cmd": "...", "demo_output_with_change": "...", "demo_output_without_change": "...", "tests_pass_with_change": true}}
  {out}/2/...          - same for the second change
Each patch.diff must be relative to the clean commit (so reset the worktree with `git checkout -- .` between the two changes). When finished leave the worktree clean (`git checkout -- . && git clean -fdq -e target`) and delete {wt}/target to free disk. Report briefly what the two changes are.""")
